(** C17, translator tie: FreeBlock and ArrangeBlock of container/bytes/blocks.go
    as translated from the Go source on this run (Gen_blocks.v,
    harness/cmd/go2coq) against [free] and [arrange] of coq/model/Blocks.v.

    The mutex operations are no-ops and the atomic add is a plain add in the
    generated (sequential) code.  The Buffer interface value is an opaque
    handle; bts.Buffer is the function parameter [bts_Buffer].  The theorems
    hold for every implementation of that parameter that hands out windows of
    one heap array [A] the way the storages of the repository do (hypothesis
    [buffer_spec] over the model's [buf_slice]); [brel h buf] says that array
    [A] of the heap holds the bytes of the model buffer. *)
From Coq Require Import List ZArith NArith Lia Bool.
From Coq Require Import ZifyBool.
From GL Require Import lib.GoLite model.Blocks spec.AllocSet proofs.C17_Bytes proofs.C17_Inv proofs.C17_Blocks.
From GLGEN Require Import BL_GenVocab Gen_blocks C17_GenFn.
Import ListNotations.
Open Scope Z_scope.
Ltac Zify.zify_post_hook ::= Z.div_mod_to_equations.

Ltac bk_cbn :=
  unfold Gen.set_Blocks_blkSize, Gen.set_Blocks_blksInSegm, Gen.set_Blocks_segments, Gen.set_Blocks_freeIdx,
    Gen.set_Blocks_bts, Gen.set_Blocks_available in *;
  cbn [Gen.Blocks_blkSize Gen.Blocks_blksInSegm Gen.Blocks_segments Gen.Blocks_freeIdx Gen.Blocks_bts
       Gen.Blocks_available blkSize blksInSegm segments freeIdx available bts fst snd] in *.

Section BlocksHeap.

Variable A : nat.

(* array A of the heap holds the bytes of the model buffer *)
Definition brel (h : heap) (buf : buffer) : Prop :=
  (A < length h)%nat /\ zlen (arr_get h A) = bsize buf /\ 0 <= bsize buf < 9223372036854775808 /\
  forall off, 0 <= off < bsize buf -> znth (arr_get h A) off = Z.of_N (bget buf off).

Lemma window_facts h buf offs size base len : brel h buf -> 0 <= size ->
  buf_slice buf offs size = Some (base, len) ->
  base = offs /\ 0 <= base /\ 0 <= len <= size /\ base + len <= bsize buf /\
  (len = size \/ base + len = bsize buf) /\
  wf_slice h (mkSl A base len (bsize buf - base)).
Proof.
  intros (Ha & Hl & Hs & _) Hsz E. unfold buf_slice in E.
  destruct (Z.ltb_spec offs 0); destruct (Z.leb_spec (bsize buf) offs); cbn [orb] in E; try discriminate.
  injection E as <- <-.
  destruct (Z.ltb_spec (bsize buf) (offs + size)); unfold wf_slice; cbn [s_arr s_off s_len s_cap]; repeat split; lia.
Qed.

Lemma window_load h buf base len pos : brel h buf -> 0 <= base -> 0 <= pos < len -> base + len <= bsize buf ->
  znth (sl_get h (mkSl A base len (bsize buf - base))) pos = Z.of_N (bget buf (base + pos)).
Proof.
  intros (Ha & Hl & Hs & Hb) H0 Hp Hin. unfold sl_get. cbn [s_arr s_off s_len].
  rewrite znth_zsub by lia. apply Hb. lia.
Qed.

Lemma window_store h buf base len pos x : brel h buf -> 0 <= base -> 0 <= pos < len -> base + len <= bsize buf ->
  N.land x 255 = x ->
  brel (sl_put h (mkSl A base len (bsize buf - base)) pos [Z.of_N x]) (bset buf (base + pos) x).
Proof.
  intros (Ha & Hl & Hs & Hb) H0 Hp Hin Hx. unfold brel, sl_put. cbn [s_arr s_off].
  rewrite length_arr_set by exact Ha. rewrite arr_get_set_same by exact Ha. rewrite bsize_bset.
  split; [exact Ha|]. split.
  { unfold zlen in *. rewrite length_zsplice by (unfold zlen; cbn [length]; lia). exact Hl. }
  split; [exact Hs|]. intros off Ho. rewrite znth_zsplice1 by (unfold zlen in *; lia).
  destruct (Z.eqb_spec off (base + pos)) as [->|Hne].
  - rewrite bget_bset_same, Hx. reflexivity.
  - rewrite bget_bset_other by lia. apply Hb. exact Ho.
Qed.

End BlocksHeap.

Section BlocksAlloc.

Variable bts_Buffer : Z -> Z -> Z -> M (gslice * error).
Variable hd : Z.
Variable A : nat.

Hypothesis buffer_spec : forall h buf offs size, brel A h buf ->
  bts_Buffer hd offs size h =
  match buf_slice buf offs size with
  | None => Ok ((nil_slice, Err), h)
  | Some (base, len) => Ok ((mkSl A base len (bsize buf - base), ENil), h)
  end.

(* the generated record in heap h represents the model state *)
Definition grel (h : heap) (g : Gen.Blocks) (b : blocks) : Prop :=
  Gen.Blocks_blkSize g = blkSize b /\ Gen.Blocks_blksInSegm g = blksInSegm b /\
  Gen.Blocks_segments g = segments b /\ Gen.Blocks_freeIdx g = freeIdx b /\
  Gen.Blocks_available g = available b /\ Gen.Blocks_bts g = hd /\ brel A h (bts b).

(* the counters fit their Go types *)
Definition counters_ok (b : blocks) : Prop :=
  0 <= freeIdx b <= bsize (bts b) /\ -2147483647 <= available b < 2147483647.

Theorem gen_FreeBlock_refines : forall h g b idx, grel h g b -> geom_ok b -> counters_ok b ->
  -9223372036854775808 <= idx < 9223372036854775808 ->
  match free b idx with
  | (b', FreeOk) => exists g' h', Gen.Blocks_FreeBlock bts_Buffer g idx h = Ok ((g', ENil), h') /\ grel h' g' b'
  | (_, FreeErr _) => Gen.Blocks_FreeBlock bts_Buffer g idx h = Ok ((g, Err), h)
  | (_, FreePanic) => Gen.Blocks_FreeBlock bts_Buffer g idx h = GoPanic
  end.
Proof.
  intros h g b idx (E1 & E2 & E3 & E4 & E5 & E6 & B) G (C1 & C2) Hi.
  pose proof G as (G1 & G2 & G3 & G4 & G5). pose proof B as (Ba & Bl & Bs & Bb).
  assert (BR : blk_rel g b) by (repeat split; assumption).
  pose proof (gen_getBlockIdxInHdr_refines g b idx h BR G Hi) as HH.
  unfold Gen.Blocks_FreeBlock, free.
  destruct (get_block_idx_in_hdr b idx) as [[[offs fidx] bit]|] eqn:Eh; [|unfold bind; rewrite HH; reflexivity].
  go_call HH. cbv beta iota zeta.
  assert (Hbit : (bit < 8)%N /\ (offs < 0 \/ 0 <= offs < 9223372036854775808 /\ 0 <= fidx < 9223372036854775808)).
  { unfold get_block_idx_in_hdr in Eh. destruct (Z.eqb_spec (blksInSegm b) 0) as [Z0|Z0]; [discriminate|].
    destruct ((segments b <=? Z.quot idx (blksInSegm b)) || (idx <? 0)) eqn:Ec.
    - injection Eh as <- <- <-. split; [reflexivity|left; lia].
    - injection Eh as <- <- <-.
      destruct (quot_facts idx (blksInSegm b) ltac:(lia)) as [Qp _]. specialize (Qp ltac:(lia)).
      destruct (quot_facts (Z.rem idx (blksInSegm b)) 8 ltac:(lia)) as [Q8 _]. specialize (Q8 ltac:(lia)).
      destruct (geom_bounds (segments b) (blksInSegm b) (blkSize b) (Z.quot idx (blksInSegm b)) idx
                  (Z.rem idx (blksInSegm b))) as (B1 & B2 & B3 & B4 & B5); try lia.
      unfold segm_size. split; [lia|]. right.
      replace (Z.quot idx (blksInSegm b) * ((blksInSegm b + 1) * blkSize b))
        with (Z.quot idx (blksInSegm b) * (blksInSegm b + 1) * blkSize b) by ring.
      split; lia. }
  destruct Hbit as (Hb8 & Hrange).
  destruct (Z.ltb_spec offs 0) as [Hneg|Hpos]; [reflexivity|].
  destruct Hrange as [?|(Ho & Hf)]; [lia|].
  rewrite E1, E6. pose proof (buffer_spec h (bts b) offs (blkSize b) B) as HB.
  destruct (buf_slice (bts b) offs (blkSize b)) as [[base len]|] eqn:Es; go_call HB; [|reflexivity].
  destruct (window_facts A h (bts b) offs (blkSize b) base len B G1 Es) as (-> & W0 & W1 & W2 & W3 & W).
  cbv beta iota zeta. cbn [is_nil negb].
  destruct ((fidx <? 0) || (len <=? fidx)) eqn:Eo.
  - (* buf[fidx] out of range *) unfold bind. rewrite load_panic by (cbn [s_len]; lia). reflexivity.
  - assert (Hv : (bget (bts b) (offs + fidx) < 256)%N) by apply bget_lt_256.
    assert (Hj : 0 <= Z.of_N bit < 8) by lia.
    go_step. rewrite (window_load A h (bts b) offs len fidx B) by lia.
    rewrite bit_clear_Z, N2Z.id by exact Hj.
    destruct (bit_is_clear (bget (bts b) (offs + fidx)) bit) eqn:Ecl; [reflexivity|].
    go_step. rewrite (window_load A h (bts b) offs len fidx B) by lia. go_step.
    rewrite clear_bit_Z, N2Z.id by exact Hj.
    destruct (clear_bit_spec _ _ Hv Hb8 Ecl) as (Hm & _ & _). unfold clear_bit in Hm.
    pose proof (window_store A h (bts b) offs len fidx _ B W0 ltac:(lia) W2 Hm) as B'.
    go_run; unfold ret; do 2 eexists; (split; [reflexivity|]); unfold grel; bk_cbn;
      do 6 (split; [first [assumption | reflexivity | lia]|]); exact B'.
Qed.

(** * ArrangeBlock *)

(* the innermost loop: the first clear bit of the header byte buf[pos] *)
Lemma gen_Arrange_loop3 : forall n h buf g freeSegm base len pos j f,
  brel A h buf -> 0 <= base -> 0 <= pos < len -> base + len <= bsize buf ->
  0 <= j -> j + Z.of_nat n = 8 -> (n < f)%nat ->
  -2147483647 <= Gen.Blocks_available g < 2147483647 ->
  0 <= freeSegm * Gen.Blocks_blksInSegm g -> 0 <= pos * 8 ->
  freeSegm * Gen.Blocks_blksInSegm g + pos * 8 + 8 < 9223372036854775808 ->
  iter f (Gen.Blocks_ArrangeBlock_loop3 bts_Buffer g freeSegm pos (mkSl A base len (bsize buf - base))) j h =
  match find_zero_bit n (Z.to_N j) (bget buf (base + pos)) with
  | Some j' =>
      Ok (Return (Gen.set_Blocks_available g (Gen.Blocks_available g - 1),
                  freeSegm * Gen.Blocks_blksInSegm g + pos * 8 + Z.of_N j', ENil),
          sl_put h (mkSl A base len (bsize buf - base)) pos
                 [Z.of_N (N.lor (bget buf (base + pos)) (bit_mask j'))])
  | None => Ok (Fall 8, h)
  end.
Proof.
  induction n as [|n IH]; intros h buf g freeSegm base len pos j f B H0 Hp Hin Hj Hn Hf Hav I1 I2 I3;
    (destruct f as [|f]; [lia|]); rewrite iter_S; unfold Gen.Blocks_ArrangeBlock_loop3 at 1; cbv beta iota zeta;
    cbn [find_zero_bit].
  - go_run. replace j with 8 by lia. reflexivity.
  - assert (W : wf_slice h (mkSl A base len (bsize buf - base))).
    { destruct B as (Ba & Bl & Bs & _). unfold wf_slice. cbn [s_arr s_off s_len s_cap]. repeat split; lia. }
    go_if; [|lia]. repeat go_step. rewrite (window_load A h buf base len pos B) by lia.
    rewrite bit_clear_Z by lia.
    destruct (bit_is_clear (bget buf (base + pos)) (Z.to_N j)) eqn:Ecl.
    + repeat go_step. rewrite (window_load A h buf base len pos B) by lia. repeat go_step.
      rewrite set_bit_Z by lia. cbv beta iota zeta. unfold ret.
      unfold Gen.set_Blocks_available. cbn [Gen.Blocks_blksInSegm]. go_unwrap.
      rewrite Z2N.id by lia. replace (Gen.Blocks_available g + -1) with (Gen.Blocks_available g - 1) by lia.
      reflexivity.
    + go_run. replace (Z.to_N j + 1)%N with (Z.to_N (j + 1)) by lia.
      apply IH; try assumption; lia.
Qed.

(* the scan of one header block from position pos *)
Lemma gen_Arrange_loop2 : forall n h buf g freeSegm base len pos f,
  brel A h buf -> 0 <= base -> 0 <= pos <= len -> base + len <= bsize buf ->
  (Z.to_nat (len - pos) <= n)%nat -> (Z.to_nat (len - pos) < f)%nat ->
  -2147483647 <= Gen.Blocks_available g < 2147483647 ->
  0 <= Gen.Blocks_freeIdx g -> Gen.Blocks_freeIdx g + (len - pos) < 9223372036854775808 ->
  0 <= freeSegm * Gen.Blocks_blksInSegm g ->
  freeSegm * Gen.Blocks_blksInSegm g + len * 8 + 8 < 9223372036854775808 ->
  iter f (Gen.Blocks_ArrangeBlock_loop2 bts_Buffer freeSegm (mkSl A base len (bsize buf - base))) (g, pos) h =
  match scan_hdr n buf base len pos (Gen.Blocks_freeIdx g) with
  | ScanFound p j fidx' =>
      Ok (Return (Gen.set_Blocks_available (Gen.set_Blocks_freeIdx g fidx') (Gen.Blocks_available g - 1),
                  freeSegm * Gen.Blocks_blksInSegm g + p * 8 + Z.of_N j, ENil),
          sl_put h (mkSl A base len (bsize buf - base)) p
                 [Z.of_N (N.lor (bget buf (base + p)) (bit_mask j))])
  | ScanEnd fidx' => Ok (Fall (Gen.set_Blocks_freeIdx g fidx', len), h)
  | ScanOOF => NoFuel
  end.
Proof.
  induction n as [|n IH]; intros h buf g freeSegm base len pos f B H0 Hp Hin Hn Hf Hav F0 F1 I1 I3;
    (destruct f as [|f]; [lia|]); rewrite iter_S; unfold Gen.Blocks_ArrangeBlock_loop2 at 1; cbv beta iota zeta;
    cbn [scan_hdr s_len];
    assert (Eg : Gen.set_Blocks_freeIdx g (Gen.Blocks_freeIdx g) = g) by (destruct g; reflexivity).
  - destruct (Z.ltb_spec pos len); [lia|]. go_run. replace pos with len by lia. rewrite Eg. reflexivity.
  - destruct (Z.ltb_spec pos len) as [Hlt|Hge].
    2:{ go_run. replace pos with len by lia. rewrite Eg. reflexivity. }
    assert (W : wf_slice h (mkSl A base len (bsize buf - base))).
    { destruct B as (Ba & Bl & Bs & _). unfold wf_slice. cbn [s_arr s_off s_len s_cap]. repeat split; lia. }
    pose proof (bget_lt_256 buf (base + pos)) as Hv.
    repeat go_step. rewrite (window_load A h buf base len pos B) by lia.
    set (v := bget buf (base + pos)) in *.
    (* what the rest of the scan does *)
    assert (Hnext : forall h',
      h' = h ->
      iter f (Gen.Blocks_ArrangeBlock_loop2 bts_Buffer freeSegm (mkSl A base len (bsize buf - base)))
           (Gen.set_Blocks_freeIdx g (i64 (Gen.Blocks_freeIdx g + 1)), i64 (pos + 1)) h' =
      match scan_hdr n buf base len (pos + 1) (Gen.Blocks_freeIdx g + 1) with
      | ScanFound p j fidx' =>
          Ok (Return (Gen.set_Blocks_available (Gen.set_Blocks_freeIdx g fidx') (Gen.Blocks_available g - 1),
                      freeSegm * Gen.Blocks_blksInSegm g + p * 8 + Z.of_N j, ENil),
              sl_put h (mkSl A base len (bsize buf - base)) p
                     [Z.of_N (N.lor (bget buf (base + p)) (bit_mask j))])
      | ScanEnd fidx' => Ok (Fall (Gen.set_Blocks_freeIdx g fidx', len), h)
      | ScanOOF => NoFuel
      end).
    { intros h' ->. go_unwrap.
      rewrite (IH h buf (Gen.set_Blocks_freeIdx g (Gen.Blocks_freeIdx g + 1)) freeSegm base len (pos + 1) f B H0)
        by (try assumption; destruct g; unfold Gen.set_Blocks_freeIdx;
            cbn [Gen.Blocks_available Gen.Blocks_freeIdx Gen.Blocks_blksInSegm] in *; lia).
      destruct g; unfold Gen.set_Blocks_freeIdx, Gen.set_Blocks_available;
        cbn [Gen.Blocks_available Gen.Blocks_freeIdx Gen.Blocks_blksInSegm Gen.Blocks_blkSize
             Gen.Blocks_segments Gen.Blocks_bts]. reflexivity. }
    destruct (N.eqb_spec v 255) as [E255|N255].
    + (* a full byte *)
      destruct (Z.eqb_spec (Z.of_N v) 255); [|lia]. cbn [negb]. cbv beta iota zeta.
      repeat go_step. apply Hnext. reflexivity.
    + destruct (Z.eqb_spec (Z.of_N v) 255); [lia|]. cbn [negb]. cbv beta iota zeta.
      pose proof (gen_Arrange_loop3 8 h buf g freeSegm base len pos 0 10 B H0 ltac:(lia) Hin ltac:(lia)
                    ltac:(lia) ltac:(lia) Hav I1 ltac:(lia) ltac:(nia)) as L3.
      change (Z.to_N 0) with 0%N in L3. fold v in L3.
      destruct (find_zero_bit 8 0 v) as [j|].
      * repeat go_step. go_call L3. cbv beta iota zeta. repeat go_step. unfold ret. rewrite Eg. reflexivity.
      * repeat go_step. go_call L3. cbv beta iota zeta. repeat go_step. apply Hnext. reflexivity.
Qed.

(* the index arithmetic of ArrangeBlock fits an int (true of every geometry
   NewBlocks accepts: blksInSegm = 8*blkSize) *)
Definition geom_ok2 (b : blocks) : Prop :=
  segments b * blksInSegm b + 8 * blkSize b + 8 < 9223372036854775808 /\
  segments b * ((blksInSegm b + 1) * blkSize b) <= bsize (bts b) /\   (* the segments lie inside the storage *)
  (blksInSegm b + 1) * blkSize b < 9223372036854775808 /\ blksInSegm b + 1 < 9223372036854775808.

(* what the loop over the segments does, given what the model's loop does *)
Definition loop1_post (h : heap) (res : blocks * arr_res)
  (o : outcome (ctl (Gen.Blocks * Z) (Gen.Blocks * Z * error) * heap)) : Prop :=
  match res with
  | (b', ArrIdx i) => exists g' h', o = Ok (Return (g', i, ENil), h') /\ grel h' g' b'
  | (b', ArrErr EExhausted) => exists g' fs, o = Ok (Fall (g', fs), h) /\ grel h g' b'
  | (b', ArrErr _) => exists g', o = Ok (Return (g', 0, Err), h) /\ grel h g' b'
  | (_, ArrPanic) => o = GoPanic
  | (_, ArrOOF) => False   (* the model's fuel is enough *)
  end.

(* the loop over the segments; [fidx] is the running value of bks.freeIdx *)
Lemma gen_Arrange_loop1 : forall n h b g freeSegm fidx f,
  grel h g (with_free b fidx) -> geom_ok b -> geom_ok2 b ->
  -2147483647 <= available b < 2147483647 ->
  0 <= freeSegm -> 0 <= fidx <= bsize (bts b) ->
  (Z.to_nat (segments b - freeSegm) <= n)%nat -> (Z.to_nat (segments b - freeSegm) < f)%nat ->
  loop1_post h (arrange_loop n b freeSegm fidx)
             (iter f (Gen.Blocks_ArrangeBlock_loop1 bts_Buffer) (g, freeSegm) h).
Proof.
  induction n as [|n IH]; intros h b g freeSegm fidx f R G G2 Hav Hfs Hfi Hn Hf;
    pose proof R as (E1 & E2 & E3 & E4 & E5 & E6 & B); cbn [with_free blkSize blksInSegm segments freeIdx available bts] in *;
    pose proof G as (G1 & G3 & G4 & G5 & G6); pose proof B as (Ba & Bl & Bs & Bb);
    (destruct f as [|f]; [lia|]); rewrite iter_S; unfold Gen.Blocks_ArrangeBlock_loop1 at 1; cbv beta iota zeta;
    cbn [arrange_loop]; rewrite E3.
  - destruct (Z.ltb_spec freeSegm (segments b)); [lia|]. go_run. unfold ret, loop1_post.
    exists g, freeSegm. split; [reflexivity|exact R].
  - destruct (Z.ltb_spec freeSegm (segments b)) as [Hlt|Hge].
    2:{ go_run. unfold ret, loop1_post. exists g, freeSegm. split; [reflexivity|exact R]. }
    rewrite E1, E4.
    destruct (Z.eqb_spec (blkSize b) 0) as [Z0|Z0]; [rewrite Z0; reflexivity|].
    destruct (quot_facts fidx (blkSize b) ltac:(lia)) as [Qp _]. specialize (Qp ltac:(lia)).
    repeat go_step. go_unwrap. rewrite E6.
    pose proof (buffer_spec h (bts b) (fidx - Z.rem fidx (blkSize b)) (blkSize b) B) as HB.
    destruct (buf_slice (bts b) (fidx - Z.rem fidx (blkSize b)) (blkSize b)) as [[base len]|] eqn:Es; go_call HB;
      cbv beta iota zeta; cbn [is_nil negb].
    2:{ repeat go_step. unfold ret, loop1_post. exists g. split; [reflexivity|exact R]. }
    destruct (window_facts A h (bts b) _ (blkSize b) base len B G1 Es) as (Eb & W0 & W1 & W2 & W3 & W).
    set (pos := Z.rem fidx (blkSize b)) in *.
    assert (Hpl : 0 <= pos <= len) by lia.
    assert (I1 : 0 <= freeSegm * Gen.Blocks_blksInSegm g) by (rewrite E2; apply Z.mul_nonneg_nonneg; lia).
    assert (I3 : freeSegm * Gen.Blocks_blksInSegm g + len * 8 + 8 < 9223372036854775808).
    { rewrite E2. assert (freeSegm * blksInSegm b <= segments b * blksInSegm b)
        by (apply Z.mul_le_mono_nonneg_r; lia). destruct G2 as (G2a & G2b & G2c & G2d). lia. }
    pose proof (gen_Arrange_loop2 (Z.to_nat len) h (bts b) g freeSegm base len pos
                  (Z.to_nat len + 2) B W0 Hpl W2 ltac:(lia) ltac:(lia) ltac:(lia) ltac:(lia) ltac:(lia) I1 I3) as L2.
    rewrite E4, E2, E5 in L2. cbn [s_len].
    destruct (scan_hdr_spec (Z.to_nat len) (bts b) base len pos fidx Hpl ltac:(lia))
      as [(p & j & Esc & Hp & _ & Hne & Hfz)|(Esc & _)]; rewrite Esc in *.
    + (* a free block found *)
      repeat go_step. go_call L2. cbv beta iota zeta. repeat go_step. unfold ret, loop1_post.
      pose proof (bget_lt_256 (bts b) (base + p)) as Hv.
      destruct (find_zero_bit_spec _ _ Hv Hfz) as (Hj8 & Hcl & _).
      destruct (set_bit_spec _ _ Hv Hj8 Hcl) as (Hm & _ & _). unfold set_bit in Hm.
      do 2 eexists. split; [reflexivity|]. unfold grel. bk_cbn.
      do 6 (split; [first [assumption | reflexivity | lia]|]).
      apply window_store; try assumption; lia.
    + (* this header is full: on to the next segment *)
      repeat go_step. go_call L2. cbv beta iota zeta. repeat go_step. bk_cbn.
      assert (Hseg : 0 <= (freeSegm + 1) * ((blksInSegm b + 1) * blkSize b) <= bsize (bts b)).
      { assert (0 <= (blksInSegm b + 1) * blkSize b) by (apply Z.mul_nonneg_nonneg; lia).
        assert ((freeSegm + 1) * ((blksInSegm b + 1) * blkSize b) <= segments b * ((blksInSegm b + 1) * blkSize b))
          by (apply Z.mul_le_mono_nonneg_r; lia).
        destruct G2 as (G2a & G2b & G2c & G2d).
        split; [apply Z.mul_nonneg_nonneg; lia|lia]. }
      assert (Hss : 0 <= (blksInSegm b + 1) * blkSize b < 9223372036854775808).
      { split; [apply Z.mul_nonneg_nonneg; lia|]. destruct G2 as (_ & _ & G2c & _). exact G2c. }
      rewrite E2, E1. go_unwrap. unfold segm_size in *.
      match goal with |- loop1_post _ _ (iter _ _ (?g2, _) _) =>
        apply (IH h b g2 (freeSegm + 1) ((freeSegm + 1) * ((blksInSegm b + 1) * blkSize b)) f)
      end; try assumption; try lia.
      unfold grel, with_free. bk_cbn. do 6 (split; [first [assumption | reflexivity | lia]|]). exact B.
Qed.

Theorem gen_ArrangeBlock_refines : forall h g b, grel h g b -> geom_ok b -> geom_ok2 b -> counters_ok b ->
  match arrange b with
  | (b', ArrIdx i) =>
      exists g' h', Gen.Blocks_ArrangeBlock bts_Buffer g h = Ok ((g', i, ENil), h') /\ grel h' g' b'
  | (b', ArrErr _) =>
      exists g', Gen.Blocks_ArrangeBlock bts_Buffer g h = Ok ((g', 0, Err), h) /\ grel h g' b'
  | (_, ArrPanic) => Gen.Blocks_ArrangeBlock bts_Buffer g h = GoPanic
  | (_, ArrOOF) => False   (* the model never runs out of fuel *)
  end.
Proof.
  intros h g b R G G2 (C1 & C2). pose proof R as (E1 & E2 & E3 & E4 & E5 & E6 & B).
  pose proof G as (G1 & G3 & G4 & G5 & G6). pose proof B as (Ba & Bl & Bs & Bb).
  unfold Gen.Blocks_ArrangeBlock, arrange, segm_size. rewrite E2, E1, E4.
  assert (Hss : 0 <= (blksInSegm b + 1) * blkSize b < 9223372036854775808).
  { split; [apply Z.mul_nonneg_nonneg; lia|]. destruct G2 as (_ & _ & G2c & _). exact G2c. }
  assert (Hb1 : 0 <= blksInSegm b + 1 < 9223372036854775808) by (destruct G2 as (_ & _ & _ & G2d); lia).
  go_unwrap.
  destruct (Z.eqb_spec ((blksInSegm b + 1) * blkSize b) 0) as [Z0|Z0]; [rewrite Z0; reflexivity|].
  destruct (quot_facts (freeIdx b) ((blksInSegm b + 1) * blkSize b) ltac:(lia)) as [Qp _]. specialize (Qp ltac:(lia)).
  repeat go_step. go_unwrap. rewrite E3.
  assert (Rw : grel h g (with_free b (freeIdx b))) by (destruct b; exact R).
  pose proof (gen_Arrange_loop1 (Z.to_nat (segments b)) h b g
                (Z.quot (freeIdx b) ((blksInSegm b + 1) * blkSize b)) (freeIdx b)
                (Z.to_nat (segments b) + 2) Rw G G2 ltac:(lia) ltac:(lia) C1 ltac:(lia) ltac:(lia)) as L1.
  unfold segm_size, loop1_post in L1.
  destruct (arrange_loop (Z.to_nat (segments b)) b (Z.quot (freeIdx b) ((blksInSegm b + 1) * blkSize b)) (freeIdx b))
    as [b' [i|e| |]].
  - destruct L1 as (g' & h' & E & R'). go_call E. cbv beta iota zeta. unfold ret. exists g', h'. split; [reflexivity|exact R'].
  - destruct e.
    all: try (destruct L1 as (g' & E & R'); go_call E; cbv beta iota zeta; unfold ret; exists g'; split; [reflexivity|exact R']).
    destruct L1 as (g' & fs & E & R'). go_call E. cbv beta iota zeta. unfold ret. exists g'. split; [reflexivity|exact R'].
  - unfold bind. rewrite L1. reflexivity.
  - exact L1.
Qed.

(** The headline of C17 about ArrangeBlock, over the generated code: on a state
    reachable in the model (and within the machine-integer ranges), a
    successful ArrangeBlock of the translated code returns the smallest free
    index, marks exactly that block, and leaves a state that represents the
    model's next state. *)
Theorem gen_arrange_fresh : forall page fit h g b g' i e h',
  reachable page fit b -> grel h g b -> geom_ok b -> geom_ok2 b -> counters_ok b ->
  Gen.Blocks_ArrangeBlock bts_Buffer g h = Ok ((g', i, e), h') -> e = ENil ->
  exists b', arrange b = (b', ArrIdx i) /\ grel h' g' b' /\
    0 <= i < blocks_count b /\ ~ In i (alloc_list b) /\
    (forall k, 0 <= k < i -> In k (alloc_list b)) /\
    (forall k, In k (alloc_list b') <-> k = i \/ In k (alloc_list b)) /\
    available b' = available b - 1.
Proof.
  intros page fit h g b g' i e h' HR R G G2 C E ->.
  pose proof (gen_ArrangeBlock_refines h g b R G G2 C) as HA.
  destruct (arrange b) as [b' [i'|er| |]] eqn:Ea.
  - destruct HA as (g2 & h2 & E2 & R2). rewrite E in E2. injection E2 as <- <- <-.
    destruct (arrange_fresh page fit b b' i HR Ea) as (F1 & F2 & F3 & F4 & _ & F6).
    exists b'. split; [reflexivity|]. split; [exact R2|]. split; [exact F1|]. split; [exact F2|].
    split; [exact F3|]. split; [exact F4|exact F6].
  - destruct HA as (g2 & E2 & _). rewrite E in E2. discriminate.
  - rewrite E in HA. discriminate.
  - contradiction.
Qed.

End BlocksAlloc.

(** * An implementation of bts.Buffer: windows of a heap array, cut at its end
      (what inmemBtsBuf.Buffer and MMFile.Buffer do) *)

Definition hb_Buffer (A : nat) (_ offs size : Z) : M (gslice * error) := fun h =>
  let n := zlen (arr_get h A) in
  if (offs <? 0) || (n <=? offs) then Ok ((nil_slice, Err), h)
  else Ok ((mkSl A offs (if n <? offs + size then n - offs else size) (n - offs), ENil), h).

Lemma hb_buffer_spec : forall A hd h buf offs size, brel A h buf ->
  hb_Buffer A hd offs size h =
  match buf_slice buf offs size with
  | None => Ok ((nil_slice, Err), h)
  | Some (base, len) => Ok ((mkSl A base len (bsize buf - base), ENil), h)
  end.
Proof.
  intros A hd h buf offs size (Ba & Bl & Bs & Bb). unfold hb_Buffer, buf_slice. rewrite Bl.
  destruct ((offs <? 0) || (bsize buf <=? offs)); reflexivity.
Qed.

(* the closed forms *)
Theorem gen_ArrangeBlock_refines_hb : forall A hd h g b,
  grel hd A h g b -> geom_ok b -> geom_ok2 b -> counters_ok b ->
  match arrange b with
  | (b', ArrIdx i) =>
      exists g' h', Gen.Blocks_ArrangeBlock (hb_Buffer A) g h = Ok ((g', i, ENil), h') /\ grel hd A h' g' b'
  | (b', ArrErr _) =>
      exists g', Gen.Blocks_ArrangeBlock (hb_Buffer A) g h = Ok ((g', 0, Err), h) /\ grel hd A h g' b'
  | (_, ArrPanic) => Gen.Blocks_ArrangeBlock (hb_Buffer A) g h = GoPanic
  | (_, ArrOOF) => False
  end.
Proof. intros A hd. exact (gen_ArrangeBlock_refines (hb_Buffer A) hd A (hb_buffer_spec A hd)). Qed.
Print Assumptions gen_ArrangeBlock_refines_hb.

Theorem gen_FreeBlock_refines_hb : forall A hd h g b idx,
  grel hd A h g b -> geom_ok b -> counters_ok b ->
  -9223372036854775808 <= idx < 9223372036854775808 ->
  match free b idx with
  | (b', FreeOk) => exists g' h', Gen.Blocks_FreeBlock (hb_Buffer A) g idx h = Ok ((g', ENil), h') /\ grel hd A h' g' b'
  | (_, FreeErr _) => Gen.Blocks_FreeBlock (hb_Buffer A) g idx h = Ok ((g, Err), h)
  | (_, FreePanic) => Gen.Blocks_FreeBlock (hb_Buffer A) g idx h = GoPanic
  end.
Proof. intros A hd. exact (gen_FreeBlock_refines (hb_Buffer A) hd A (hb_buffer_spec A hd)). Qed.
Print Assumptions gen_FreeBlock_refines_hb.

Theorem gen_arrange_fresh_hb : forall A hd page fit h g b g' i h',
  reachable page fit b -> grel hd A h g b -> geom_ok b -> geom_ok2 b -> counters_ok b ->
  Gen.Blocks_ArrangeBlock (hb_Buffer A) g h = Ok ((g', i, ENil), h') ->
  exists b', arrange b = (b', ArrIdx i) /\ grel hd A h' g' b' /\
    0 <= i < blocks_count b /\ ~ In i (alloc_list b) /\
    (forall k, 0 <= k < i -> In k (alloc_list b)) /\
    (forall k, In k (alloc_list b') <-> k = i \/ In k (alloc_list b)) /\
    available b' = available b - 1.
Proof.
  intros A hd page fit h g b g' i h' HR R G G2 C E.
  exact (gen_arrange_fresh (hb_Buffer A) hd A (hb_buffer_spec A hd) page fit h g b g' i ENil h' HR R G G2 C E eq_refl).
Qed.
Print Assumptions gen_arrange_fresh_hb.

(* non-vacuity: blkSize 1 (8 blocks per segment), one segment in a 9-byte array;
   two allocations, a release, an allocation that takes the released block *)
Example gen_ex_alloc :
  let g0 := Gen.mk_Blocks 1 8 1 0 0 8 in
  let h0 : heap := [[0; 0; 0; 0; 0; 0; 0; 0; 0]] in
  match Gen.Blocks_ArrangeBlock (hb_Buffer 0) g0 h0 with
  | Ok ((g1, i1, e1), h1) =>
      i1 = 0 /\ e1 = ENil /\ h1 = [[1; 0; 0; 0; 0; 0; 0; 0; 0]] /\
      match Gen.Blocks_ArrangeBlock (hb_Buffer 0) g1 h1 with
      | Ok ((g2, i2, e2), h2) =>
          i2 = 1 /\ h2 = [[3; 0; 0; 0; 0; 0; 0; 0; 0]] /\ Gen.Blocks_available g2 = 6 /\
          match Gen.Blocks_FreeBlock (hb_Buffer 0) g2 0 h2 with
          | Ok ((g3, e3), h3) =>
              e3 = ENil /\ h3 = [[2; 0; 0; 0; 0; 0; 0; 0; 0]] /\
              match Gen.Blocks_ArrangeBlock (hb_Buffer 0) g3 h3 with
              | Ok ((g4, i4, e4), h4) => i4 = 0 /\ h4 = [[3; 0; 0; 0; 0; 0; 0; 0; 0]]
              | _ => False end
          | _ => False end
      | _ => False end
  | _ => False
  end.
Proof. vm_compute. repeat split; reflexivity. Qed.

