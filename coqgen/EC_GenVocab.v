(** Vocabulary of the C08 tie (coqgen/C08_GenFn*.v), part 1 (independent of
    generated code): the bridge between the two abstract ordered maps of the
    development -- spec/OMap.v (the specification of iterable.Map that the
    generated map is proved to refine: every entry ever added, with a live
    flag; an iterator is an index) and the map contract of model/ECache.v (the
    live entries with their stamps; an iterator is a stamp) -- and the
    encoding of the cache's callbacks in the log array of the heap.

    [bm dec es]: the ECache-side map of the OMap entries [es]; the values of
    the generated map are handles of [pair{pk, v}] values, [dec] unpacks
    them. *)
Set Warnings "-notation-overridden,-parsing".
From Coq Require Import List ZArith NArith Arith Bool Lia.
From Coq Require Import ZifyN ZifyNat ZifyBool.
From GL Require Import lib.IMapBase spec.OMap spec.LRU model.ECache.
Import ListNotations.

Section Bridge.
Variable dec : Z -> Z * Z.

Definition b_ent (j : nat) (e : OMap.entry) : ent Z (Z * Z) :=
  mkEnt (N.of_nat j) (OMap.e_key e) (dec (OMap.e_val e)).

Fixpoint lives (i : nat) (es : list OMap.entry) : list (ent Z (Z * Z)) :=
  match es with
  | [] => []
  | e :: t => if OMap.e_live e then b_ent i e :: lives (S i) t else lives (S i) t
  end.

Definition bm (es : list OMap.entry) : ECache.omap Z (Z * Z) :=
  ECache.mkOMap (lives 0 es) (N.of_nat (length es)).

Lemma ents_get_lives k : forall es i,
  ents_get Z.eqb k (lives i es) = option_map (fun e => dec (OMap.e_val e)) (o_find es k).
Proof.
  unfold o_find. induction es as [|e t IH]; intros i; [reflexivity|]. cbn [lives find]. unfold live_with at 1.
  destruct (OMap.e_live e); cbn [andb]; [|apply IH].
  cbn [ents_get b_ent ECache.e_key ECache.e_val]. rewrite (Z.eqb_sym k).
  destruct (OMap.e_key e =? k)%Z; [reflexivity|apply IH].
Qed.

Lemma lives_app e : forall es i,
  lives i (es ++ [e]) = lives i es ++ (if OMap.e_live e then [b_ent (i + length es) e] else []).
Proof.
  induction es as [|a t IH]; intros i; cbn [lives app length].
  - rewrite Nat.add_0_r. destruct (OMap.e_live e); reflexivity.
  - rewrite IH. replace (S i + length t)%nat with (i + S (length t))%nat by lia. destruct (OMap.e_live a); reflexivity.
Qed.

Lemma lives_kill k : forall es i,
  filter (fun e => negb (Z.eqb k (ECache.e_key e))) (lives i es) = lives i (map (kill k) es).
Proof.
  induction es as [|e t IH]; intros i; [reflexivity|]. cbn [lives map].
  assert (Hk : kill k e = if live_with k e then mkEntry (OMap.e_key e) (OMap.e_val e) false else e) by reflexivity.
  rewrite Hk. unfold live_with. destruct (OMap.e_live e) eqn:El; cbn [andb].
  - cbn [filter b_ent ECache.e_key]. rewrite (Z.eqb_sym k).
    destruct (OMap.e_key e =? k)%Z; cbn [negb OMap.e_live]; [apply IH|]. rewrite El. f_equal. apply IH.
  - rewrite El. apply IH.
Qed.

Lemma lives_length : forall es i, length (lives i es) = o_len es.
Proof.
  unfold o_len. induction es as [|e t IH]; intros i; [reflexivity|]. cbn [lives filter].
  destruct (OMap.e_live e); cbn [length]; rewrite IH; reflexivity.
Qed.

Lemma peek_lives p : forall es i,
  find (fun e => (N.of_nat p <=? e_stamp e)%N) (lives i es) =
  option_map (fun r => b_ent (fst r) (snd r)) (first_live_from (Nat.max i p) (skipn (p - i) es)).
Proof.
  induction es as [|e t IH]; intros i.
  - cbn [lives find]. rewrite skipn_nil. reflexivity.
  - cbn [lives]. destruct (Nat.le_gt_cases p i) as [Hpi|Hpi].
    + replace (p - i)%nat with 0%nat by lia. replace (Nat.max i p) with i by lia. cbn [skipn first_live_from].
      destruct (OMap.e_live e).
      * cbn [find b_ent e_stamp]. destruct (N.leb_spec (N.of_nat p) (N.of_nat i)); [reflexivity|lia].
      * rewrite IH. replace (p - S i)%nat with 0%nat by lia. replace (Nat.max (S i) p) with (S i) by lia. reflexivity.
    + replace (p - i)%nat with (S (p - S i)) by lia. replace (Nat.max i p) with (Nat.max (S i) p) by lia. cbn [skipn].
      destruct (OMap.e_live e); [|apply IH].
      cbn [find b_ent e_stamp]. destruct (N.leb_spec (N.of_nat p) (N.of_nat i)); [lia|apply IH].
Qed.

(** the map operations *)

Lemma B_get es k : om_get Z.eqb (bm es) k = option_map (fun e => dec (OMap.e_val e)) (o_find es k).
Proof. apply ents_get_lives. Qed.

Lemma B_add_absent es k v : o_find es k = None ->
  om_add Z.eqb (bm es) k (dec v) = bm (es ++ [mkEntry k v true]).
Proof.
  intros H. unfold om_add. rewrite B_get, H. cbn [option_map]. unfold bm. cbn [om_ents om_next].
  rewrite lives_app, app_length. cbn [OMap.e_live length Nat.add]. f_equal. lia.
Qed.

Lemma B_add_present es k x e : o_find es k = Some e -> om_add Z.eqb (bm es) k x = bm es.
Proof. intros H. unfold om_add. rewrite B_get, H. reflexivity. Qed.

Lemma B_remove es k : om_remove Z.eqb (bm es) k = bm (map (kill k) es).
Proof. unfold om_remove, bm. cbn [om_ents om_next]. rewrite lives_kill, map_length. reflexivity. Qed.

Lemma B_len es : om_len (bm es) = o_len es.
Proof. apply lives_length. Qed.

Lemma B_peek es p : it_peek (bm es) (N.of_nat p) =
  option_map (fun r => b_ent (fst r) (snd r)) (first_live es p).
Proof.
  unfold it_peek, bm, first_live. cbn [om_ents]. rewrite peek_lives.
  rewrite Nat.sub_0_r, Nat.max_0_l. reflexivity.
Qed.

Lemma B_first es : om_first (bm es) = option_map (fun r => OMap.e_key (snd r)) (first_live es 0).
Proof.
  unfold om_first, it_next, it_start. change 0%N with (N.of_nat 0). rewrite B_peek.
  destruct (first_live es 0) as [[j e]|]; reflexivity.
Qed.

End Bridge.

(** * Events in the log array: fixed-length records *)

Definition enc_ev (e : lru_ev Z Z) : list Z :=
  match e with
  | EvCreate pk (Some v) => [0; pk; 1; v]
  | EvCreate pk None => [0; pk; 0; 0]
  | EvDelete pk v => [1; pk; v; 0]
  end%Z.
Definition enc_evs (l : list (lru_ev Z Z)) : list Z := concat (map enc_ev l).

Lemma enc_evs_inj : forall a b, enc_evs a = enc_evs b -> a = b.
Proof.
  induction a as [|x a IH]; intros [|y b] H; cbn in H; try reflexivity.
  - destruct y as [pk [v|]|pk v]; discriminate.
  - destruct x as [pk [v|]|pk v]; discriminate.
  - destruct x as [pk [v|]|pk v]; destruct y as [pk' [v'|]|pk' v']; cbn in H; try discriminate;
      inversion H; subst; f_equal; apply IH; assumption.
Qed.
